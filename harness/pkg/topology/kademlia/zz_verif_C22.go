package kademlia

import (
	"github.com/gauss-project/aurorafs/pkg/boson"
	"github.com/gauss-project/aurorafs/pkg/topology/pslice"
	"github.com/gauss-project/aurorafs/pkg/zzverif"
)

// C22 (a): recalcDepth is consistent with the connected peer set.
//
//verif:root pkg/boson pkg/topology/pslice
//verif:merge pkg/boson.Proximity, (*pkg/topology/pslice.PSlice).po, (*pkg/topology/pslice.PSlice).index
//verif:merge (*pkg/topology/pslice.PSlice).EachBin, (*pkg/topology/pslice.PSlice).EachBinRev, recalcDepth

// verifC22assert states a clause twice: for inputs outside the region
// "some bin holds peers, none of them reachable" (label) and inside it
// (labelR). The engine stops re-checking a label once it is violated, so the
// split keeps the first label fully checked while the defect under the second
// (notes/C22.md) is present. Used for the saturation clause only; the other
// clauses are asserted for all inputs under one label.
func verifC22assert(region, cond bool, label, labelR string) {
	zzverif.Assert(region || cond, label)
	zzverif.Assert(!region || cond, labelR)
}

// VerifC22_RecalcDepth: for every layout of up to P connected peers over the
// first B bins (count per bin 0..cmax), every reachability predicate (an
// uninterpreted function of the address), every radius and quick-saturation
// threshold qs, each clause of the statement is asserted for
// d = recalcDepth(peers, radius, unreachable), against counts kept by the
// harness.
func VerifC22_RecalcDepth() {
	B := zzverif.Param("bins", 4, 4)
	P := zzverif.Param("peers", 6, 7)
	cmax := zzverif.Param("max-per-bin", 2, 3)
	nqs := zzverif.Param("qs-variants", 2, 3)
	zzverif.Unwind(64)

	// quick-saturation threshold: the package default is 4; New() derives it
	// from Options.BinMaxPeers as overSaturationPeers/5 (any value >= 1). With
	// the peer bounds used here a threshold of 4 could never be met by a bin
	// that has deeper reachable neighbours, so 1..3 are used.
	qs := []int{1, 2, 3}[zzverif.Choose("qs", nqs)]
	quickSaturationPeers = qs

	// B bins reach the "no empty bin" case and the capped last bin; the
	// thorough tier adds the real Kad configuration boson.MaxBins (32) bins
	nbins := B
	if zzverif.Choose("maxbins32", zzverif.Param("maxbins-variants", 1, 2)) == 1 {
		nbins = int(boson.MaxBins)
	}

	base := []byte{0xA5, 0, 0, 0, 0}
	var addrs [][]byte
	var bins []int
	cnt := make([]int, nbins)
	total := 0
	for b := 0; b < B; b++ {
		c := zzverif.Choose("n", cmax+1)
		total += c
		zzverif.Assume(total <= P)
		for j := 0; j < c; j++ {
			po := b
			if b == B-1 && j%2 == 1 {
				po = B // deeper than the last populated bin: capped when nbins == B
			}
			bin := po
			if bin > nbins-1 {
				bin = nbins - 1
			}
			addrs = append(addrs, []byte{0xA5 ^ (0x80 >> uint(po)), byte(len(addrs) + 1), 0, 0, 0})
			bins = append(bins, bin)
			cnt[bin]++
		}
	}
	radius := zzverif.U8("radius")
	// the reachability predicate: an uninterpreted function of the address,
	// evaluated once per peer here (the engine does not allow input draws inside
	// merged functions); the filter looks the value up by the peer's serial
	// number, which is the second address byte
	ur := make([]bool, len(addrs))
	for i, a := range addrs {
		ur[i] = zzverif.BoolOf("unreachable", a)
	}
	unreachable := func(a boson.Address) bool { return ur[int(a.Bytes()[1])-1] }

	// harness-side counts
	rc := make([]int, nbins) // reachable peers per bin
	onlyUnreachable := false
	for i := range addrs {
		if !ur[i] {
			rc[bins[i]]++
		}
	}
	firstEmpty := -1
	for b := nbins - 1; b >= 0; b-- {
		if cnt[b] == 0 {
			firstEmpty = b
		}
		if cnt[b] > 0 && rc[b] == 0 {
			onlyUnreachable = true
		}
	}
	zzverif.Region("C22/bin-with-only-unreachable-peers", onlyUnreachable)

	ps := pslice.New(nbins, boson.NewAddress(base))
	for _, a := range addrs {
		ps.Add(boson.NewAddress(a))
	}
	zzverif.Assert(ps.Length() == total, "harness: all peers distinct and stored")

	d := int(recalcDepth(ps, radius, unreachable))

	zzverif.Assert(d <= int(radius), "depth <= radius")
	if total <= 3 {
		zzverif.Assert(d == 0, "depth = 0 with at most three peers")
	}
	beyond := 0
	shallowOK := true
	for b := 0; b < nbins; b++ {
		if b >= d {
			beyond += rc[b]
		}
		if b < d && rc[b] < qs {
			shallowOK = false
		}
	}
	zzverif.Assert(d == 0 || beyond >= 3, "positive depth leaves >= 3 reachable peers at or beyond it")
	if firstEmpty >= 0 {
		zzverif.Assert(d <= firstEmpty, "depth <= shallowest empty bin")
	}
	verifC22assert(onlyUnreachable, shallowOK, "every bin shallower than depth has >= quickSaturation reachable peers", "every bin shallower than depth has >= quickSaturation reachable peers [bin with only unreachable peers]")

	// order independence: the same set connected in the opposite order, the
	// first three as one batch
	ps2 := pslice.New(nbins, boson.NewAddress(base))
	n := len(addrs)
	if n >= 3 {
		ps2.Add(boson.NewAddress(addrs[n-1]), boson.NewAddress(addrs[n-2]), boson.NewAddress(addrs[n-3]))
		for i := n - 4; i >= 0; i-- {
			ps2.Add(boson.NewAddress(addrs[i]))
		}
	} else {
		for i := n - 1; i >= 0; i-- {
			ps2.Add(boson.NewAddress(addrs[i]))
		}
	}
	d2 := int(recalcDepth(ps2, radius, unreachable))
	zzverif.Assert(d2 == d, "depth independent of the connection order")
	zzverif.Reach("C22-recalcDepth")
}
