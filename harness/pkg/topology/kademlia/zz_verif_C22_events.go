package kademlia

import (
	"context"
	"errors"
	"io"

	"github.com/gauss-project/aurorafs/pkg/addressbook"
	"github.com/gauss-project/aurorafs/pkg/aurora"
	"github.com/gauss-project/aurorafs/pkg/boson"
	"github.com/gauss-project/aurorafs/pkg/logging"
	"github.com/gauss-project/aurorafs/pkg/p2p"
	"github.com/gauss-project/aurorafs/pkg/subscribe"
	"github.com/gauss-project/aurorafs/pkg/topology"
	im "github.com/gauss-project/aurorafs/pkg/topology/kademlia/internal/metrics"
	"github.com/gauss-project/aurorafs/pkg/topology/kademlia/internal/waitnext"
	"github.com/gauss-project/aurorafs/pkg/topology/pslice"
	"github.com/gauss-project/aurorafs/pkg/zzverif"
)

// C22 (b): the depth REPORTED by a Kad (NeighborhoodDepth) is consistent with
// the CURRENT connected set, reachability records and radius after every event
// (connect / disconnect / forced disconnect / reachability update / radius
// update). Part (a) (zz_verif_C22.go) evaluates recalcDepth as a function; this
// file runs the event handlers that decide WHEN the stored depth is recomputed.
//
//verif:root pkg/boson pkg/topology/pslice pkg/aurora pkg/bitvector pkg/metrics
//verif:merge recalcDepth, binSaturated$1
//verif:noop (*Kad).PublishPeersChange
//verif:noop (*pkg/topology/kademlia/internal/metrics.Collector).Record, pkg/topology/kademlia/internal/metrics.PeerLogIn, pkg/topology/kademlia/internal/metrics.PeerLogOut, pkg/topology/kademlia/internal/metrics.PeerReachability
//verif:noop (pkg/p2p.ReachabilityStatus).String
//verif:noop pkg/topology/kademlia/internal/waitnext.New, (*pkg/topology/kademlia/internal/waitnext.WaitNext).Remove, (*pkg/topology/kademlia/internal/waitnext.WaitNext).SetTryAfter
//verif:stub (*Kad).Announce = verifC22evAnnounce

// ---- environment ----------------------------------------------------------

var verifC22evEnv *verifC22evScene

type verifC22evScene struct {
	k           *Kad
	universe    []boson.Address
	bin         []int  // bin of each universe peer (by construction of the addresses)
	unreach     []bool // the reachability records: true = no record / last status not Public
	conn        []bool // the peer is in the connected set the Kad reports (refreshed after every event)
	radius      uint8  // the storage radius last given to the Kad
	full        aurora.Model
	nbins       int // bins of the Kad's peer lists
	p2pOutcomes int
	failures    bool // environment failures (announce, address book) are part of the alphabet
	// stale: a connected peer with a Public record received a non-Public
	// reachability update and no event that recomputes the depth has been
	// delivered since (the region of the known finding, see notes/C22.md)
	stale bool
}

func (sc *verifC22evScene) index(a boson.Address) int {
	for i, u := range sc.universe {
		if u.Equal(a) {
			return i
		}
	}
	return -1
}

// p2p service: only Disconnect is used (by DisconnectForce). As in the C24
// harness: (0) closes the connection and notifies the topology synchronously;
// (1) closes it without a notification; (2, thorough tier) has no connection:
// p2p.ErrPeerNotFound.
type verifC22evP2P struct {
	p2p.Service // nil: every other method is unused
}

func (s *verifC22evP2P) Disconnect(overlay boson.Address, reason string) error {
	sc := verifC22evEnv
	switch zzverif.Choose("p2p-disconnect", sc.p2pOutcomes) {
	case 0:
		sc.k.Disconnected(p2p.Peer{Address: overlay, Mode: sc.full}, reason)
		sc.stale = false // a disconnection event has been delivered
	case 2:
		return p2p.ErrPeerNotFound
	}
	return nil
}

type verifC22evBook struct {
	addressbook.Interface
}

func (b *verifC22evBook) Remove(overlay boson.Address) error {
	if verifC22evEnv.failures && zzverif.Bool("addressbook-remove-fails") {
		return errors.New("verif: address book failure")
	}
	return nil
}

type verifC22evSubPub struct {
	subscribe.SubPub
}

func (verifC22evSubPub) Publish(nameSpace string, kind string, param string, message interface{}) error {
	return nil
}

// verifC22evAnnounce replaces (*Kad).Announce (gossip, goroutines): it
// succeeds, or (thorough tier) fails.
func verifC22evAnnounce(k *Kad, ctx context.Context, peer boson.Address, fullnode bool) error {
	if verifC22evEnv.failures && zzverif.Bool("announce-fails") {
		return errors.New("verif: announce failure")
	}
	return nil
}

// ---- oracle -----------------------------------------------------------------

func verifC22evAssert(region, cond bool, label string) {
	zzverif.Assert(region || cond, label)
	zzverif.Assert(!region || cond, label+" [peer turned non-public, no recalculation since]")
}

// verifC22evCheck: the clauses of the statement for the reported depth against
// the set the Kad reports as connected (EachPeer), the reachability records
// and the radius, counted by the harness; and "depends only on the current
// set": the reported depth is the depth of a fresh peer list holding the current
// set (recalcDepth as a function of the set is the subject of part (a)).
func verifC22evCheck(sc *verifC22evScene, qs int) {
	// the universe populates bins 0 and 1 only: counts are kept for the bins
	// 0..nbins-1; every deeper bin is empty (a depth beyond them is caught by
	// the empty-bin clause and counts as "a shallower bin without reachable peers")
	const nbins = 3
	cnt := make([]int, nbins)
	rc := make([]int, nbins)
	total := 0
	foreign := 0
	for i := range sc.conn {
		sc.conn[i] = false
	}
	_ = sc.k.EachPeer(func(a boson.Address, po uint8) (bool, bool, error) {
		if i := sc.index(a); i >= 0 {
			sc.conn[i] = true
		} else {
			foreign++
		}
		return false, false, nil
	}, topology.Filter{})
	zzverif.Assert(foreign == 0, "harness: only universe peers are connected")
	fresh := pslice.New(sc.nbins, sc.k.base)
	for i := range sc.universe {
		if !sc.conn[i] {
			continue
		}
		total++
		cnt[sc.bin[i]]++
		if !sc.unreach[i] {
			rc[sc.bin[i]]++
		}
		fresh.Add(sc.universe[i])
	}
	firstEmpty := -1
	for b := nbins - 1; b >= 0; b-- {
		if cnt[b] == 0 {
			firstEmpty = b
		}
	}

	d := int(sc.k.NeighborhoodDepth())

	zzverif.Region("C22/peer-turned-non-public-without-recalculation", sc.stale)
	verifC22evAssert(sc.stale, d <= int(sc.radius), "depth <= radius")
	if total <= 3 {
		verifC22evAssert(sc.stale, d == 0, "depth = 0 with at most three peers")
	}
	beyond := 0
	shallowOK := true
	for b := 0; b < nbins; b++ {
		if b >= d {
			beyond += rc[b]
		}
		if b < d && rc[b] < qs {
			shallowOK = false
		}
	}
	if d > nbins {
		shallowOK = false // bin nbins is shallower than d and empty
	}
	verifC22evAssert(sc.stale, d == 0 || beyond >= 3, "positive depth leaves >= 3 reachable peers at or beyond it")
	if firstEmpty >= 0 {
		verifC22evAssert(sc.stale, d <= firstEmpty, "depth <= shallowest empty bin")
	}
	verifC22evAssert(sc.stale, shallowOK, "every bin shallower than depth has >= quickSaturation reachable peers")
	want := int(recalcDepth(fresh, sc.radius, sc.k.peerFilter))
	verifC22evAssert(sc.stale, d == want, "reported depth depends only on the current set (not on the history of events)")
}

// ---- harness ------------------------------------------------------------------

// VerifC22_Events: a real Kad (built in-package without the manage loop) with
// five connected peers (two in bin 0, three in bin 1; every reachability record
// free, radius free) receives a short history of events; after every event the
// reported depth is checked against the current set.
func VerifC22_Events() {
	zzverif.Unwind(128)
	steps := zzverif.Param("event-steps", 2, 2)
	nactors := zzverif.Param("event-actors", 2, 4)
	nstatus := zzverif.Param("event-statuses", 2, 3)
	nqs := zzverif.Param("event-qs-variants", 1, 2)
	failures := zzverif.Param("event-env-failures", 0, 0) == 1

	qs := []int{1, 2}[zzverif.Choose("qs", nqs)]
	quickSaturationPeers = qs

	base := boson.NewAddress([]byte{0, 0, 0, 0})
	mk := func(b0, b3 byte) boson.Address { return boson.NewAddress([]byte{b0, 0, 0, b3}) }
	// peer lists with 4 bins (quick) / boson.MaxBins = 32 bins as kademlia.New makes them (thorough)
	sc := &verifC22evScene{failures: failures, nbins: zzverif.Param("event-kad-bins", 4, 4), p2pOutcomes: zzverif.Param("event-p2p-outcomes", 2, 3)}
	// index:                        0 A0         1 A1         2 A2         3 B0         4 B1         5 B2         6 B3
	sc.universe = []boson.Address{mk(0x80, 1), mk(0x80, 2), mk(0x80, 3), mk(0x40, 1), mk(0x40, 2), mk(0x40, 3), mk(0x40, 4)}
	sc.bin = []int{0, 0, 0, 1, 1, 1, 1}
	for i, u := range sc.universe {
		zzverif.Assert(int(boson.Proximity(base.Bytes(), u.Bytes())) == sc.bin[i], "harness: bins as intended")
	}
	// reachability records at the start: free for A0, A1, A2, B0, B3; B1 and B2
	// (never actors) are reachable in the quick tier, free in the thorough tier
	sc.unreach = make([]bool, len(sc.universe))
	allFree := zzverif.Param("event-all-records-free", 0, 0) == 1
	for i := range sc.unreach {
		if allFree || (i != 4 && i != 5) {
			sc.unreach[i] = zzverif.Bool("unreachable")
		}
	}
	sc.conn = make([]bool, len(sc.universe))
	sc.full = aurora.NewModel().SetMode(aurora.FullNode)
	sc.radius = zzverif.U8("radius")

	// the reachability filter reads the records kept by the harness, as
	// Kad.peerUnreachable reads the record of the metrics collector
	filter := func(a boson.Address) bool {
		if i := sc.index(a); i >= 0 {
			return sc.unreach[i]
		}
		return true
	}
	k := &Kad{
		base:           base,
		p2p:            &verifC22evP2P{},
		addressBook:    &verifC22evBook{},
		saturationFunc: binSaturated(overSaturationPeers, isStaticPeer(nil)),
		connectedPeers: pslice.New(sc.nbins, base),
		knownPeers:     pslice.New(sc.nbins, base),
		manageC:        make(chan struct{}, 1),
		waitNext:       waitnext.New(),
		logger:         logging.New(io.Discard, 0),
		nodeMode:       aurora.NewModel().SetMode(aurora.FullNode),
		collector:      new(im.Collector),
		metrics:        newMetrics(),
		radius:         sc.radius,
		staticPeer:     isStaticPeer(nil),
		peerFilter:     filter,
		subPub:         verifC22evSubPub{},
	}
	sc.k = k
	verifC22evEnv = sc

	// start state through the real Outbound: A0, A1 (bin 0), B0, B1, B2 (bin 1)
	for _, i := range []int{0, 1, 3, 4, 5} {
		k.Outbound(p2p.Peer{Address: sc.universe[i], Mode: sc.full})
	}
	verifC22evCheck(sc, qs)

	// actors: A0 (connected, bin 0), A2 (fresh, bin 0), B0 (connected, bin 1), B3 (fresh, bin 1)
	actors := []int{0, 2, 3, 6}[:nactors]
	statuses := []p2p.ReachabilityStatus{p2p.ReachabilityStatusPublic, p2p.ReachabilityStatusPrivate, p2p.ReachabilityStatusUnknown}
	ctx := context.Background()
	nev := 4 + nstatus
	for s := 0; s < steps; s++ {
		ev := zzverif.Choose("event", nev*nactors+1)
		if ev == nev*nactors {
			// the storage radius changes (or is set to the same value again)
			r := zzverif.U8("new-radius")
			if r != sc.radius {
				sc.stale = false
			}
			sc.radius = r
			k.SetRadius(r)
			verifC22evCheck(sc, qs)
			continue
		}
		a := actors[ev/nev]
		addr := sc.universe[a]
		switch op := ev % nev; op {
		case 0: // an outbound connection to the actor has been established
			k.Outbound(p2p.Peer{Address: addr, Mode: sc.full})
			sc.stale = false
		case 1: // the actor dialed in
			if err := k.Connected(ctx, p2p.Peer{Address: addr, Mode: sc.full}, zzverif.Bool("force")); err == nil {
				sc.stale = false
			}
		case 2: // the connection to the actor was closed
			k.Disconnected(p2p.Peer{Address: addr, Mode: sc.full}, "closed")
			sc.stale = false
		case 3: // forced disconnection (debug API)
			if err := k.DisconnectForce(addr, "forced"); err == nil {
				sc.stale = false
			}
		default: // the reachability of the actor has been (re)determined
			st := statuses[op-4]
			if st == p2p.ReachabilityStatusPublic {
				sc.stale = false
			} else if sc.conn[a] && !sc.unreach[a] {
				sc.stale = true
			}
			// the record is updated first (collector.Record in Kad.Reachable), then
			// the topology reacts
			sc.unreach[a] = st != p2p.ReachabilityStatusPublic
			k.Reachable(addr, st)
		}
		verifC22evCheck(sc, qs)
	}
	zzverif.Reach("C22-events")
}
