package kademlia

import (
	"errors"

	"github.com/gauss-project/aurorafs/pkg/boson"
	"github.com/gauss-project/aurorafs/pkg/p2p"
	"github.com/gauss-project/aurorafs/pkg/topology"
	"github.com/gauss-project/aurorafs/pkg/topology/pslice"
	"github.com/gauss-project/aurorafs/pkg/zzverif"
)

//verif:root pkg/boson pkg/topology/pslice
//verif:merge pkg/boson.DistanceCmp, (pkg/boson.Address).Closer
//verif:stub pkg/boson.Proximity = verifC23proximity
//verif:merge (*pkg/topology/pslice.PSlice).po, (*pkg/topology/pslice.PSlice).index
//verif:merge (*Kad).ClosestPeer$1, (*Kad).EachPeerRev$1

// verifC23proximity replaces boson.Proximity (whose bit loop with 32 early
// returns is re-explored on every path) by its specification min(clz(x^y),31)
// for 4-byte operands, written without early returns. boson.Proximity itself is
// the subject of C20; here it only decides the bin a peer is stored in.
func verifC23proximity(one, other []byte) uint8 {
	if len(one) != 4 || len(other) != 4 {
		panic("verifC23proximity: 4-byte addresses only")
	}
	x := uint32(one[0]^other[0])<<24 | uint32(one[1]^other[1])<<16 | uint32(one[2]^other[2])<<8 | uint32(one[3]^other[3])
	n := uint8(0)
	if x>>16 == 0 {
		n += 16
		x <<= 16
	}
	if x>>24 == 0 {
		n += 8
		x <<= 8
	}
	if x>>28 == 0 {
		n += 4
		x <<= 4
	}
	if x>>30 == 0 {
		n += 2
		x <<= 2
	}
	if x>>31 == 0 {
		n++
	}
	if n > boson.MaxPO {
		n = boson.MaxPO
	}
	return n
}

// verifC23dist: XOR distance of a 4-byte address to the target as one integer
// (independent of boson.DistanceCmp's byte-wise loop with early returns).
func verifC23dist(t, x []byte) uint32 {
	return uint32(t[0]^x[0])<<24 | uint32(t[1]^x[1])<<16 | uint32(t[2]^x[2])<<8 | uint32(t[3]^x[3])
}

// verifC23nearer: x is strictly nearer to t than y.
func verifC23nearer(t, x, y boson.Address) bool {
	return verifC23dist(t.Bytes(), x.Bytes()) < verifC23dist(t.Bytes(), y.Bytes())
}

// verifC23same: equality of two 4-byte addresses (word comparison, no branches).
func verifC23same(x, y boson.Address) bool {
	a, b := x.Bytes(), y.Bytes()
	return verifC23dist(a, b) == 0
}

func verifC23member(x boson.Address, list []boson.Address) bool {
	r := false
	for _, y := range list {
		if verifC23same(x, y) {
			r = true
		}
	}
	return r
}

// verifC23rig is the symbolic scene shared by both harnesses.
type verifC23rig struct {
	k        *Kad
	base     boson.Address
	peers    []boson.Address // the connected set (pairwise distinct, != base)
	target   boson.Address
	skips    []boson.Address
	filter   topology.Filter
	selfEl   bool   // self is eligible: includeSelf requested and own status public
	inclSelf bool   // includeSelf argument
	eligible []bool // per peer: not skipped, and reachable when requested
	anyEl    bool
}

func verifC23setup(withSelf bool, maxPeers, n, nskip, bins int) *verifC23rig {
	zzverif.Unwind(64)

	r := &verifC23rig{}
	r.base = boson.NewAddress(zzverif.BytesN("base", 4))
	for i := 0; i < n; i++ {
		p := boson.NewAddress(zzverif.BytesN("peer", 4))
		// a connected set: pairwise distinct overlay addresses, none is our own
		zzverif.Assume(!verifC23same(p, r.base))
		for _, q := range r.peers {
			zzverif.Assume(!verifC23same(p, q))
		}
		r.peers = append(r.peers, p)
	}
	r.target = boson.NewAddress(zzverif.BytesN("target", 4))
	for i := 0; i < nskip; i++ {
		r.skips = append(r.skips, boson.NewAddress(zzverif.BytesN("skip", 4)))
	}
	r.filter = topology.Filter{Reachable: zzverif.Bool("filter-reachable")}
	status := zzverif.Int("own-status")
	zzverif.Assume(status >= 0 && status <= 2)
	if withSelf {
		r.inclSelf = zzverif.Bool("include-self")
	}
	r.selfEl = r.inclSelf && p2p.ReachabilityStatus(status) == p2p.ReachabilityStatusPublic

	// uninterpreted reachability predicate over the address bytes (true =
	// unreachable), evaluated once per peer; the filter given to Kad looks the
	// peer up (the peers are pairwise distinct)
	unreach := make([]bool, len(r.peers))
	for i, p := range r.peers {
		unreach[i] = zzverif.BoolOf("unreachable", p.Bytes())
	}
	unreachable := func(a boson.Address) bool {
		res := true
		for i, p := range r.peers {
			if verifC23same(a, p) {
				res = unreach[i]
			}
		}
		return res
	}

	r.k = &Kad{
		base:           r.base,
		connectedPeers: pslice.New(bins, r.base),
		knownPeers:     pslice.New(bins, r.base),
		reachability:   p2p.ReachabilityStatus(status),
		peerFilter:     unreachable,
	}
	for _, p := range r.peers {
		r.k.connectedPeers.Add(p)
	}

	// independent eligibility oracle
	for i, p := range r.peers {
		e := !verifC23member(p, r.skips)
		if r.filter.Reachable && unreach[i] {
			e = false
		}
		r.eligible = append(r.eligible, e)
		if e {
			r.anyEl = true
		}
	}
	return r
}

// (verifC23call is not merged: its results live in different buffers)

// verifC23call runs ClosestPeer and classifies the outcome (0 peer returned,
// 1 ErrWantSelf, 2 ErrNotFound, 3 anything else) so that the different return
// sites of ClosestPeer join into one path.
func verifC23call(r *verifC23rig) (boson.Address, int) {
	got, err := r.k.ClosestPeer(r.target, r.inclSelf, r.filter, r.skips...)
	switch {
	case err == nil:
		return got, 0
	case errors.Is(err, topology.ErrWantSelf):
		return r.base, 1
	case errors.Is(err, topology.ErrNotFound):
		return r.base, 2
	}
	return r.base, 3
}

// VerifC23_ClosestPeer: for every connected set of <= N peers, target, skip
// list, reachability filter, own status and includeSelf setting, ClosestPeer
// returns an eligible peer such that no eligible peer is strictly nearer;
// ErrWantSelf <=> self eligible and strictly nearer than every eligible peer;
// ErrNotFound <=> no eligible peer.
func VerifC23_ClosestPeer() {
	// one bin: the peers are visited in insertion order, and since their
	// addresses are unconstrained every visiting order of every set is covered
	// (the callback of ClosestPeer ignores the bin number).
	maxPeers := zzverif.Param("peers", 4, 5)
	n := zzverif.Choose("n", maxPeers+1)
	nskip := 2
	if zzverif.Param("vary-skip-length", 0, 1) == 1 {
		nskip = zzverif.Choose("nskip", 3)
	}
	verifC23closest(verifC23setup(true, maxPeers, n, nskip, 1))
	zzverif.Reach("C23-closest-peer")
}

// VerifC23_ClosestPeerBins: the same assertions with the peers spread over
// several bins (EachBinRev visits shallow bins first).
func VerifC23_ClosestPeerBins() {
	n := zzverif.Param("peers", 2, 3)
	bins := zzverif.Param("bins", 2, 3)
	verifC23closest(verifC23setup(true, n, n, 1, bins))
	zzverif.Reach("C23-closest-peer-bins")
}

func verifC23closest(r *verifC23rig) {
	got, code := verifC23call(r)

	// unconstrained corner: no eligible peer but self eligible (the two "exactly
	// when" clauses of the statement overlap there): either error is accepted.
	zzverif.Assert(code != 3, "unexpected error kind")
	if code == 0 {
		isEl := false
		for i, p := range r.peers {
			if r.eligible[i] && verifC23same(got, p) {
				isEl = true
			}
		}
		zzverif.Assert(isEl, "result is an eligible connected peer")
		for i, p := range r.peers {
			if r.eligible[i] {
				zzverif.Assert(!verifC23nearer(r.target, p, got), "no eligible peer strictly nearer than result")
			}
		}
		if r.selfEl {
			zzverif.Assert(!verifC23nearer(r.target, r.base, got), "self eligible and strictly nearer => ErrWantSelf")
		}
	}
	if code == 1 {
		zzverif.Assert(r.selfEl, "ErrWantSelf only when self eligible")
		for i, p := range r.peers {
			if r.eligible[i] {
				zzverif.Assert(verifC23nearer(r.target, r.base, p), "ErrWantSelf only when self strictly nearer than every eligible peer")
			}
		}
	}
	if code == 2 {
		zzverif.Assert(!r.anyEl, "ErrNotFound only when no peer eligible")
	}
}

// VerifC23_ClosestPeers: ClosestPeers(limit<=3) returns pairwise distinct
// eligible peers in non-decreasing distance order.
func VerifC23_ClosestPeers() {
	maxPeers := zzverif.Param("peers", 3, 4)
	n := zzverif.Choose("n", maxPeers+1)
	limit := 3
	if zzverif.Param("vary-limit", 0, 1) == 1 {
		limit = zzverif.Choose("limit", 4)
	}
	r := verifC23setup(false, maxPeers, n, 1, 1)
	out, _ := r.k.ClosestPeers(r.target, limit, r.filter, r.skips...)
	for i := range out {
		isEl := false
		for j, p := range r.peers {
			if r.eligible[j] && verifC23same(out[i], p) {
				isEl = true
			}
		}
		zzverif.Assert(isEl, "every selected peer is an eligible connected peer")
		for j := 0; j < i; j++ {
			zzverif.Assert(!verifC23same(out[i], out[j]), "selected peers distinct")
			zzverif.Assert(!verifC23nearer(r.target, out[i], out[j]), "non-decreasing distance order")
		}
	}
	zzverif.Reach("C23-closest-peers")
}
