package kademlia

import (
	"context"
	"errors"
	"io"

	"github.com/gauss-project/aurorafs/pkg/addressbook"
	"github.com/gauss-project/aurorafs/pkg/aurora"
	"github.com/gauss-project/aurorafs/pkg/boson"
	"github.com/gauss-project/aurorafs/pkg/logging"
	"github.com/gauss-project/aurorafs/pkg/p2p"
	"github.com/gauss-project/aurorafs/pkg/subscribe"
	"github.com/gauss-project/aurorafs/pkg/topology"
	im "github.com/gauss-project/aurorafs/pkg/topology/kademlia/internal/metrics"
	"github.com/gauss-project/aurorafs/pkg/topology/kademlia/internal/waitnext"
	"github.com/gauss-project/aurorafs/pkg/topology/pslice"
	"github.com/gauss-project/aurorafs/pkg/zzverif"
)

//verif:root pkg/boson pkg/topology/pslice pkg/aurora pkg/bitvector pkg/metrics
//verif:merge recalcDepth, binSaturated$1
//verif:noop (*Kad).PublishPeersChange
//verif:noop (*pkg/topology/kademlia/internal/metrics.Collector).Record, pkg/topology/kademlia/internal/metrics.PeerLogIn, pkg/topology/kademlia/internal/metrics.PeerLogOut
//verif:noop pkg/topology/kademlia/internal/waitnext.New, (*pkg/topology/kademlia/internal/waitnext.WaitNext).Remove, (*pkg/topology/kademlia/internal/waitnext.WaitNext).SetTryAfter
//verif:stub (*Kad).Announce = verifC24announce
//verif:stub (*Kad).randomPeer = verifC24randomPeer

// ---- environment stubs -------------------------------------------------

// the scene of the running harness (used by the stubs)
var verifC24env *verifC24scene

type verifC24scene struct {
	k        *Kad
	universe []boson.Address
	bin      []uint8 // bin of each universe peer (by construction of the addresses)
	unreach  []bool  // reachability predicate per universe peer (true = unreachable)
	ref      []bool  // reference: full node connected and not since disconnected
	// open: the p2p layer closed the connection to the peer WITHOUT telling the
	// topology (no Disconnected notification) and no later event has settled the
	// peer's state: the statement speaks about connection / disconnection /
	// forced-disconnection events, a silent close is none of them, so whether the
	// peer is still reported is left unconstrained until the next event on it
	open []bool
	full aurora.Model

	threshold int
	ownBoot   bool
	actorBoot []bool         // per actor 0..3: the actor is a boot node
	modes     []aurora.Model // per actor 0..3
	protected []bool         // per actor 0..3: on the current protect list
}

func (sc *verifC24scene) index(a boson.Address) int {
	for i, u := range sc.universe {
		if u.Equal(a) {
			return i
		}
	}
	return -1
}

// p2p service: only Disconnect is used. Three behaviours of a p2p.Service:
//  0. it has no connection to the peer: p2p.ErrPeerNotFound
//     (libp2p.Service.Disconnect, peer registry miss);
//  1. it closes the connection and notifies the topology synchronously
//     (libp2p.Service.Disconnect with the topology registered as notifier);
//  2. it closes the connection and returns nil WITHOUT calling the notifier back
//     (libp2p.Service.Disconnect while no notifier is registered - s.notifier ==
//     nil -, pkg/p2p/mock without a notifier; the p2p.Disconnecter interface promises no callback).
//
// Which one happens is unconstrained.
type verifC24p2p struct {
	p2p.Service // nil: every other method is unused
}

func (s *verifC24p2p) Disconnect(overlay boson.Address, reason string) error {
	sc := verifC24env
	i := sc.index(overlay)
	switch zzverif.Choose("p2p-disconnect", 3) {
	case 0:
		return p2p.ErrPeerNotFound
	case 1:
		sc.k.Disconnected(p2p.Peer{Address: overlay, Mode: sc.full}, reason)
		if i >= 0 {
			sc.ref[i] = false
			sc.open[i] = false
		}
	default:
		if i >= 0 {
			sc.open[i] = true
		}
	}
	return nil
}

// address book: only Remove is used; it may fail.
type verifC24book struct {
	addressbook.Interface
}

func (b *verifC24book) Remove(overlay boson.Address) error {
	if zzverif.Bool("addressbook-remove-fails") {
		return errors.New("verif: address book failure")
	}
	return nil
}

// subscription hub: Publish is a no-op.
type verifC24subpub struct {
	subscribe.SubPub
}

func (verifC24subpub) Publish(nameSpace string, kind string, param string, message interface{}) error {
	return nil
}

// verifC24announce replaces (*Kad).Announce (gossip through the discovery
// driver, random subsets, goroutines): it only succeeds or fails.
func verifC24announce(k *Kad, ctx context.Context, peer boson.Address, fullnode bool) error {
	if zzverif.Bool("announce-fails") {
		return errors.New("verif: announce failure")
	}
	return nil
}

// verifC24randomPeer replaces (*Kad).randomPeer (crypto/rand): any connected
// peer of the bin.
func verifC24randomPeer(k *Kad, bin uint8) (boson.Address, error) {
	peers := k.connectedPeers.BinPeers(bin)
	if len(peers) == 0 {
		return boson.ZeroAddress, errEmptyBin
	}
	return peers[zzverif.Choose("random-peer", len(peers))], nil
}

// ---- oracle ---------------------------------------------------------------

// verifC24oversaturated: the bin of universe peer a is oversaturated, computed
// from the reference set: the bin lies below the potential depth (recalcDepth on
// the known peers: subject of C22, trusted here) and holds at least
// overSaturationPeers connected reachable peers (peers whose state is open, see
// verifC24scene.open, are not counted: the oracle then says "oversaturated" less
// often, which only weakens the admission assertion).
func verifC24oversaturated(sc *verifC24scene, a int, threshold int) bool {
	depth := recalcDepth(sc.k.knownPeers, boson.MaxPO, sc.k.peerFilter)
	if sc.bin[a] >= depth {
		return false
	}
	cnt := 0
	for u := range sc.universe {
		if sc.bin[u] == sc.bin[a] && sc.ref[u] && !sc.open[u] && !sc.unreach[u] {
			cnt++
		}
	}
	return cnt >= threshold
}

// verifC24check: the peers reported as connected are exactly the reference
// set, each once, and every connected peer is known.
func verifC24check(sc *verifC24scene) {
	seen := make([]int, len(sc.universe))
	foreign := 0
	_ = sc.k.EachPeer(func(a boson.Address, po uint8) (bool, bool, error) {
		if i := sc.index(a); i >= 0 {
			seen[i]++
		} else {
			foreign++
		}
		return false, false, nil
	}, topology.Filter{})
	known := make([]bool, len(sc.universe))
	_ = sc.k.EachKnownPeer(func(a boson.Address, po uint8) (bool, bool, error) {
		if i := sc.index(a); i >= 0 {
			known[i] = true
		}
		return false, false, nil
	})
	zzverif.Assert(foreign == 0, "no unknown address reported as connected")
	for i := range sc.universe {
		if sc.open[i] {
			continue
		}
		if sc.ref[i] {
			zzverif.Assert(seen[i] == 1, "live full-node connection is reported as connected (once)")
			zzverif.Assert(known[i], "connected peer is known")
		} else {
			zzverif.Assert(seen[i] == 0, "peer without live full-node connection is not reported as connected")
		}
	}
}

// ---- harness ----------------------------------------------------------------

// VerifC24_History: histories of outbound/inbound connections, disconnections,
// forced disconnections, protect-list updates and Pick queries over the actors
// X, Y (fresh bin-0 peers) and P1 (connected bin-0 peer), starting from a
// near-saturated bin 0; the node's own mode is full (quick) or full/boot-node
// (thorough).
func VerifC24_History() {
	verifC24run(2, []int{0, 1, 2}, zzverif.Param("own-boot-mode", 0, 1) == 1)
	zzverif.Reach("C24-history")
}

// VerifC24_TwoBins: the same events over X (bin 0) and Z (a fresh bin-1 peer whose
// bin lies at the potential depth and is therefore never saturated).
func VerifC24_TwoBins() {
	verifC24run(zzverif.Param("steps", 1, 2), []int{0, 3}, false)
	zzverif.Reach("C24-two-bins")
}

// VerifC24_ProtectList: the protect list is replaced several times (2 quick / 3
// thorough; every time by an arbitrary subset of {X, Y}, as the multicast
// service does when groups change) and THEN one of X, Y dials in (Connected) or
// is submitted to the admission query (Pick) while bin 0 is one below / at
// oversaturation. "Unprotected" in the admission clause means: not on the list
// of the LATEST refresh - a peer that was on an earlier list and has since been
// dropped is an ordinary peer again.
func VerifC24_ProtectList() {
	sc := verifC24setup(false)
	refreshes := zzverif.Param("protect-refreshes", 2, 3)
	for r := 0; r < refreshes; r++ {
		var members []int
		switch zzverif.Choose("protect-subset", 4) {
		case 1:
			members = []int{0}
		case 2:
			members = []int{1}
		case 3:
			members = []int{0, 1}
		}
		verifC24protect(sc, members)
		verifC24check(sc)
	}
	a := zzverif.Choose("actor", 2)
	if zzverif.Choose("inbound", 2) == 0 {
		verifC24step(sc, a, 1) // Connected
	} else {
		verifC24step(sc, a, 5) // Pick
	}
	verifC24check(sc)
	zzverif.Reach("C24-protect-list")
}

func verifC24run(steps int, actors []int, allowOwnBoot bool) {
	sc := verifC24setup(allowOwnBoot)
	for s := 0; s < steps; s++ {
		a := actors[zzverif.Choose("actor", len(actors))]
		verifC24step(sc, a, zzverif.Choose("op", 6))
		verifC24check(sc)
	}
}

// verifC24setup builds the Kad, the universe and the start state (through the
// real Outbound) and checks the membership clauses on it.
func verifC24setup(allowOwnBoot bool) *verifC24scene {
	zzverif.Unwind(128)

	// thresholds as kademlia.New derives them from Options.BinMaxPeers = 5
	// (the smallest value it accepts), for both node modes
	overSaturationPeers = 5
	saturationPeers = 2
	quickSaturationPeers = 1
	bootNodeOverSaturationPeers = 5

	base := boson.NewAddress([]byte{0, 0, 0, 0})
	mk := func(b0, b3 byte) boson.Address { return boson.NewAddress([]byte{b0, 0, 0, b3}) }
	sc := &verifC24scene{threshold: overSaturationPeers}
	// index:        0 X          1 Y          2 P1         3 Z          4 P2 ...
	sc.universe = []boson.Address{mk(0x80, 5), mk(0x80, 6), mk(0x80, 1), mk(0x40, 3),
		mk(0x80, 2), mk(0x80, 3), mk(0x80, 4), mk(0x40, 1), mk(0x40, 2), mk(0x20, 1), mk(0x80, 7)}
	sc.bin = []uint8{0, 0, 0, 1, 0, 0, 0, 1, 1, 2, 0}
	for i, u := range sc.universe {
		zzverif.Assert(boson.Proximity(base.Bytes(), u.Bytes()) == sc.bin[i], "scene: bins as intended")
	}
	// reachability: free for X, the others are reachable
	sc.unreach = make([]bool, len(sc.universe))
	sc.unreach[0] = zzverif.Bool("X-unreachable")
	sc.ref = make([]bool, len(sc.universe))
	sc.open = make([]bool, len(sc.universe))
	sc.full = aurora.NewModel().SetMode(aurora.FullNode)

	// own node mode: full node (quick tier) / full or boot node (thorough tier)
	if allowOwnBoot {
		sc.ownBoot = zzverif.Bool("own-boot-node")
	}
	ownMode := aurora.NewModel().SetMode(aurora.FullNode)
	if sc.ownBoot {
		ownMode.SetMode(aurora.BootNode)
	}
	// mode of the actors X and Z (a peer does not change its mode); Y, P1 are full nodes
	sc.actorBoot = make([]bool, 4)
	sc.actorBoot[0] = zzverif.Bool("X-is-boot-node")
	sc.actorBoot[3] = zzverif.Bool("Z-is-boot-node")
	sc.modes = make([]aurora.Model, 4)
	for i := range sc.modes {
		sc.modes[i] = aurora.NewModel().SetMode(aurora.FullNode)
		if sc.actorBoot[i] {
			sc.modes[i].SetMode(aurora.BootNode)
		}
	}
	sc.protected = make([]bool, 4)

	filter := func(a boson.Address) bool {
		if i := sc.index(a); i >= 0 {
			return sc.unreach[i]
		}
		return true
	}
	k := &Kad{
		base:           base,
		p2p:            &verifC24p2p{},
		addressBook:    &verifC24book{},
		saturationFunc: binSaturated(sc.threshold, isStaticPeer(nil)),
		connectedPeers: pslice.New(int(boson.MaxBins), base),
		knownPeers:     pslice.New(int(boson.MaxBins), base),
		manageC:        make(chan struct{}, 1),
		waitNext:       waitnext.New(),
		logger:         logging.New(io.Discard, 0),
		nodeMode:       ownMode,
		collector:      new(im.Collector),
		metrics:        newMetrics(),
		radius:         boson.MaxPO,
		staticPeer:     isStaticPeer(nil),
		peerFilter:     filter,
		subPub:         verifC24subpub{},
	}
	sc.k = k
	verifC24env = sc

	// initial state, established through the real Outbound: P1..P4 (bin 0), D1,
	// D2 (bin 1), D3 (bin 2) connected as full nodes; a fifth bin-0 peer P5 may be
	// connected as well (bin 0 then already holds overSaturationPeers peers)
	for i := 4; i < 10; i++ {
		k.Outbound(p2p.Peer{Address: sc.universe[i], Mode: sc.full})
		sc.ref[i] = true
	}
	k.Outbound(p2p.Peer{Address: sc.universe[2], Mode: sc.full})
	sc.ref[2] = true
	if zzverif.Bool("P5-initially-connected") {
		k.Outbound(p2p.Peer{Address: sc.universe[10], Mode: sc.full})
		sc.ref[10] = true
	}
	verifC24check(sc)
	return sc
}

// verifC24protect replaces the protect list by the given actors (a fresh slice
// per call, as pkg/multicast passes one).
func verifC24protect(sc *verifC24scene, members []int) {
	var list []boson.Address
	for i := range sc.protected {
		sc.protected[i] = false
	}
	for _, m := range members {
		list = append(list, sc.universe[m])
		sc.protected[m] = true
	}
	sc.k.RefreshProtectPeer(list)
}

// verifC24step delivers one event about actor a (an index 0..3 of the universe)
// to the topology and updates the reference.
func verifC24step(sc *verifC24scene, a int, op int) {
	k := sc.k
	ctx := context.Background()
	addr := sc.universe[a]
	switch op {
	case 0: // an outbound connection to the actor has been established
		k.Outbound(p2p.Peer{Address: addr, Mode: sc.modes[a]})
		if !sc.actorBoot[a] {
			sc.ref[a] = true
			sc.open[a] = false
		}
	case 1: // a full node dialed in (libp2p hands boot nodes to another container)
		zzverif.Assume(!sc.actorBoot[a])
		force := zzverif.Bool("force")
		overs := verifC24oversaturated(sc, a, sc.threshold)
		err := k.Connected(ctx, p2p.Peer{Address: addr, Mode: sc.modes[a]}, force)
		if err == nil {
			sc.ref[a] = true
			sc.open[a] = false
			if !sc.protected[a] && !force && !sc.ownBoot {
				zzverif.Assert(!overs, "unprotected inbound full node admitted only if its bin is not oversaturated")
			}
		} else {
			// libp2p closes a refused connection, which notifies the topology
			k.Disconnected(p2p.Peer{Address: addr, Mode: sc.modes[a]}, "refused")
			sc.ref[a] = false
			sc.open[a] = false
		}
	case 2: // the connection to the actor was closed
		k.Disconnected(p2p.Peer{Address: addr, Mode: sc.modes[a]}, "closed")
		sc.ref[a] = false
		sc.open[a] = false
	case 3: // forced disconnection (debug API)
		// nil: the forced disconnection has happened, whatever the p2p layer did
		// (notified synchronously or not). Error: either the p2p layer had no
		// connection (nothing changed) or it closed the connection silently and a
		// later step of DisconnectForce failed (state open, see the p2p stub).
		if err := k.DisconnectForce(addr, "forced"); err == nil {
			sc.ref[a] = false
			sc.open[a] = false
		}
	case 4: // the protect list is replaced
		switch zzverif.Choose("protect-list", 3) {
		case 0:
			verifC24protect(sc, nil)
		case 1:
			verifC24protect(sc, []int{a})
		case 2:
			verifC24protect(sc, []int{0, 1})
		}
	case 5: // admission query before the handshake completes
		overs := verifC24oversaturated(sc, a, sc.threshold)
		if k.Pick(p2p.Peer{Address: addr, Mode: sc.modes[a]}) && !sc.protected[a] && !sc.ownBoot {
			zzverif.Assert(!overs, "unprotected peer picked only if its bin is not oversaturated")
		}
	}
}
