package kademlia

import (
	"github.com/gauss-project/aurorafs/pkg/boson"
	"github.com/gauss-project/aurorafs/pkg/p2p"
	im "github.com/gauss-project/aurorafs/pkg/topology/kademlia/internal/metrics"
	"github.com/gauss-project/aurorafs/pkg/topology/pslice"
)

// VerifC28NewKad builds a Kad that only carries what pkg/routetab reads from
// it: the connected-peer index, the neighbourhood depth and the in-memory
// reachability records. No background loops, no database.
func VerifC28NewKad(base boson.Address, depth uint8, peers []boson.Address, public []bool) *Kad {
	k := &Kad{
		base:           base,
		connectedPeers: pslice.New(int(boson.MaxBins), base),
		knownPeers:     pslice.New(int(boson.MaxBins), base),
		depth:          depth,
		collector:      new(im.Collector),
	}
	for i, p := range peers {
		k.connectedPeers.Add(p)
		if public == nil {
			continue // no reachability record: SnapshotAddr returns nil
		}
		st := p2p.ReachabilityStatusPrivate
		if public[i] {
			st = p2p.ReachabilityStatusPublic
		}
		k.collector.Record(p, im.PeerReachability(st))
	}
	return k
}
