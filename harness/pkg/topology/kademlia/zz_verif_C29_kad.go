package kademlia

import (
	"github.com/gauss-project/aurorafs/pkg/boson"
	"github.com/gauss-project/aurorafs/pkg/topology/pslice"
)

// VerifC29Kad builds a Kad value that holds exactly the given connected and
// known peer sets (real pslices, filled through the real pslice.Add). Only the
// fields read by EachPeer (with Filter{Reachable:false}) and EachKnownPeer are
// populated; hive2.onFindNode uses nothing else of the Kad.
func VerifC29Kad(base boson.Address, connected, known []boson.Address) *Kad {
	k := &Kad{
		base:           base,
		connectedPeers: pslice.New(int(boson.MaxBins), base),
		knownPeers:     pslice.New(int(boson.MaxBins), base),
	}
	for _, a := range connected {
		k.connectedPeers.Add(a)
	}
	for _, a := range known {
		k.knownPeers.Add(a)
	}
	return k
}
